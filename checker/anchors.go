package main

// Alpha-normalisation. The rules anchor a number of roles on declaration names (types such as Hnsw or RaftGroup, a few
// methods and fields). A pure rename of such a declaration changes no behaviour, so it must not raise an alarm. Instead of
// teaching every rule about aliases, the loader undoes renames before the analysis: the names declared by the reference
// tree are recorded in /verif/anchors.json (scope, kind, name, name-free signature, body shape); when a recorded name is
// missing from its scope in /repo's current source while the same scope declares a name the reference does not know, and the
// two agree on kind and signature (and, when several candidates exist, on body shape), the current declaration is renamed
// back to the recorded name — consistently at every use, through an in-memory overlay of the *current* source. The program
// that is analysed is therefore alpha-equivalent to the current tree; positions keep their file and line. If nothing was
// renamed (the normal case, decided by a syntactic scan) no extra work is done; if the normalised program does not
// type-check the un-normalised one is analysed.
//
// The same machinery, run forwards, produces the rename sweep (one overlay per declaration, each renaming exactly one
// identifier) that rename_sweep.sh uses as a false-alarm regression.

import (
	"crypto/sha1"
	"encoding/json"
	"fmt"
	"go/ast"
	"go/parser"
	"go/token"
	"go/types"
	"os"
	"path/filepath"
	"regexp"
	"sort"
	"strings"

	"golang.org/x/tools/go/packages"
)

type anchorDecl struct {
	Scope  string   `json:"scope"` // "<rel pkg>" for package level, "<rel pkg>.<Type>" for methods and fields
	Kind   string   `json:"kind"`  // func method type field var const
	Name   string   `json:"name"`
	Sig    string   `json:"sig"`              // type string, module type names as declared in the reference tree
	Shape  string   `json:"shape"`            // hash of the name-free node-kind sequence of the body / type expression
	Params []string `json:"params,omitempty"` // parameter and named-result names of a function (receiver excluded)
}

type declInfo struct {
	anchorDecl
	obj types.Object
	pos token.Pos
}

func relPkg(path string) string {
	if path == modPath {
		return ""
	}
	return strings.TrimPrefix(path, modPath+"/")
}

func handWrittenFile(repo, f string) bool {
	return strings.HasSuffix(f, ".go") && !strings.HasSuffix(f, ".pb.go") && !strings.HasSuffix(f, "_test.go") && strings.HasPrefix(f, repo)
}

func shapeOf(n ast.Node) string {
	if n == nil {
		return ""
	}
	h := sha1.New()
	ast.Inspect(n, func(x ast.Node) bool {
		if x == nil {
			return false
		}
		switch v := x.(type) {
		case *ast.Ident:
			h.Write([]byte("I"))
		case *ast.BasicLit:
			h.Write([]byte("L" + v.Value))
		case *ast.BinaryExpr:
			h.Write([]byte("B" + v.Op.String()))
		case *ast.UnaryExpr:
			h.Write([]byte("U" + v.Op.String()))
		case *ast.AssignStmt:
			h.Write([]byte("A" + v.Tok.String()))
		case *ast.BranchStmt:
			h.Write([]byte("R" + v.Tok.String()))
		default:
			h.Write([]byte(fmt.Sprintf("%T;", x)))
		}
		return true
	})
	return fmt.Sprintf("%x", h.Sum(nil))[:12]
}

// enumerateDecls lists the hand-written declarations of the module packages (typed). canon maps a renamed type object to
// the name it has in the reference tree (used for member scopes and signatures).
func enumerateDecls(repo string, mod []*packages.Package, canon map[types.Object]string, withParams bool) []declInfo {
	fset := mod[0].Fset
	qual := func(p *types.Package) string { return p.Path() }
	var repl []*regexp.Regexp
	var replTo []string
	for o, cn := range canon {
		if _, ok := o.(*types.TypeName); ok && o.Pkg() != nil {
			repl = append(repl, regexp.MustCompile(regexp.QuoteMeta(o.Pkg().Path()+"."+o.Name())+`\b`))
			replTo = append(replTo, o.Pkg().Path()+"."+cn)
		}
	}
	tstr := func(t types.Type) string {
		s := types.TypeString(t, qual)
		for i, re := range repl {
			s = re.ReplaceAllString(s, replTo[i])
		}
		return s
	}
	nameOf := func(o types.Object) string {
		if cn, ok := canon[o]; ok {
			return cn
		}
		return o.Name()
	}
	var out []declInfo
	seen := map[types.Object]bool{}
	for _, p := range mod {
		rel := relPkg(p.PkgPath)
		// AST bodies by object
		bodies := map[types.Object]ast.Node{}
		params := map[*ast.Ident]bool{}
		for _, f := range p.Syntax {
			if !handWrittenFile(repo, fset.Position(f.Pos()).Filename) {
				continue
			}
			ast.Inspect(f, func(n ast.Node) bool {
				switch x := n.(type) {
				case *ast.FuncDecl:
					if o := p.TypesInfo.Defs[x.Name]; o != nil && x.Body != nil {
						bodies[o] = x.Body
					}
					for _, fl := range []*ast.FieldList{x.Recv, x.Type.Params, x.Type.Results} {
						if fl != nil {
							for _, fd := range fl.List {
								for _, nm := range fd.Names {
									params[nm] = true
								}
							}
						}
					}
				case *ast.FuncLit:
					for _, fl := range []*ast.FieldList{x.Type.Params, x.Type.Results} {
						if fl != nil {
							for _, fd := range fl.List {
								for _, nm := range fd.Names {
									params[nm] = true
								}
							}
						}
					}
				case *ast.TypeSpec:
					if o := p.TypesInfo.Defs[x.Name]; o != nil {
						bodies[o] = x.Type
					}
				case *ast.ValueSpec:
					for k, nm := range x.Names {
						if o := p.TypesInfo.Defs[nm]; o != nil && k < len(x.Values) {
							bodies[o] = x.Values[k]
						}
					}
				}
				return true
			})
		}
		for id, o := range p.TypesInfo.Defs {
			if o == nil || seen[o] || id.Name == "_" || id.Name == "main" || id.Name == "init" {
				continue
			}
			if !handWrittenFile(repo, fset.Position(id.Pos()).Filename) {
				continue
			}
			d := declInfo{obj: o, pos: id.Pos()}
			d.Name = id.Name
			d.Scope = rel
			switch v := o.(type) {
			case *types.Func:
				sig := v.Type().(*types.Signature)
				if bodies[o] == nil && sig.Recv() == nil {
					continue // assembly stubs: the .s file names them too
				}
				d.Kind = "func"
				if sig.Recv() != nil {
					d.Kind = "method"
					rt := sig.Recv().Type()
					if pt, ok := rt.(*types.Pointer); ok {
						rt = pt.Elem()
					}
					nt, ok := rt.(*types.Named)
					if !ok {
						continue
					}
					d.Scope = rel + "." + nameOf(nt.Obj())
				}
				unnamed := func(t *types.Tuple) *types.Tuple {
					var vs []*types.Var
					for k := 0; k < t.Len(); k++ {
						vs = append(vs, types.NewVar(token.NoPos, nil, "", t.At(k).Type()))
					}
					return types.NewTuple(vs...)
				}
				d.Sig = tstr(types.NewSignatureType(nil, nil, nil, unnamed(sig.Params()), unnamed(sig.Results()), sig.Variadic()))
				d.Shape = shapeOf(bodies[o])
				for k := 0; k < sig.Params().Len(); k++ {
					d.Params = append(d.Params, sig.Params().At(k).Name())
				}
				for k := 0; k < sig.Results().Len(); k++ {
					d.Params = append(d.Params, sig.Results().At(k).Name())
				}
			case *types.TypeName:
				if v.Parent() != p.Types.Scope() {
					continue
				}
				d.Kind = "type"
				d.Sig = fmt.Sprintf("%T", v.Type().Underlying())
				if v.IsAlias() {
					d.Sig = "alias"
				}
				d.Shape = shapeOf(bodies[o])
			case *types.Var:
				switch {
				case v.IsField():
					if v.Embedded() {
						continue
					}
					owner := fieldOwner(p, v)
					if owner == nil {
						continue
					}
					d.Kind = "field"
					d.Scope = rel + "." + nameOf(owner)
					d.Sig = tstr(v.Type())
				case v.Parent() == p.Types.Scope():
					d.Kind = "var"
					d.Sig = tstr(v.Type())
					d.Shape = shapeOf(bodies[o])
				default:
					if !withParams || !params[id] {
						continue
					}
					d.Kind = "param"
					d.Sig = tstr(v.Type())
				}
			case *types.Const:
				if v.Parent() != p.Types.Scope() {
					continue
				}
				d.Kind = "const"
				d.Sig = tstr(v.Type()) + "=" + v.Val().ExactString()
				d.Shape = shapeOf(bodies[o])
			default:
				continue
			}
			seen[o] = true
			out = append(out, d)
		}
	}
	sort.Slice(out, func(i, j int) bool {
		a, b := out[i], out[j]
		if a.Scope != b.Scope {
			return a.Scope < b.Scope
		}
		if a.Kind != b.Kind {
			return a.Kind < b.Kind
		}
		if a.Name != b.Name {
			return a.Name < b.Name
		}
		return a.pos < b.pos
	})
	return out
}

// fieldOwner: the package-level named struct type that declares field v at its top level.
func fieldOwner(p *packages.Package, v *types.Var) *types.TypeName {
	sc := p.Types.Scope()
	for _, n := range sc.Names() {
		tn, ok := sc.Lookup(n).(*types.TypeName)
		if !ok {
			continue
		}
		st, ok := tn.Type().Underlying().(*types.Struct)
		if !ok {
			continue
		}
		for i := 0; i < st.NumFields(); i++ {
			if st.Field(i) == v {
				return tn
			}
		}
	}
	return nil
}

func loadModule(repo string, overlay map[string][]byte) ([]*packages.Package, error) {
	os.Unsetenv("GOWORK")
	cfg := &packages.Config{Mode: packages.LoadAllSyntax, Dir: repo, Overlay: overlay,
		Env: append(os.Environ(), "GOFLAGS=-mod=mod", "GOPROXY=off", "GOSUMDB=off", "GOTOOLCHAIN=local", "GOWORK=off")}
	pkgs, err := packages.Load(cfg, "./...")
	if err != nil {
		return nil, err
	}
	var mod []*packages.Package
	for _, p := range pkgs {
		if strings.HasPrefix(p.PkgPath, modPath) {
			if len(p.Errors) > 0 {
				return nil, fmt.Errorf("type errors in %s: %v", p.PkgPath, p.Errors[0])
			}
			mod = append(mod, p)
		}
	}
	if len(mod) == 0 {
		return nil, fmt.Errorf("no module packages")
	}
	return mod, nil
}

// occurrences of every object over the module packages.
func occurrences(mod []*packages.Package) map[types.Object][]*ast.Ident {
	occ := map[types.Object][]*ast.Ident{}
	for _, p := range mod {
		for id, o := range p.TypesInfo.Defs {
			if o != nil {
				occ[o] = append(occ[o], id)
			}
		}
		for id, o := range p.TypesInfo.Uses {
			occ[o] = append(occ[o], id)
		}
	}
	return occ
}

// applyRenames rewrites every occurrence of the given objects; returns path -> new content for the touched files
// (on top of base, the overlay already in force).
func applyRenames(repo string, mod []*packages.Package, ren map[types.Object]string, base map[string][]byte) map[string][]byte {
	fset := mod[0].Fset
	occ := occurrences(mod)
	type ed struct {
		off, end int
		to       string
	}
	byFile := map[string][]ed{}
	for o, to := range ren {
		for _, id := range occ[o] {
			ps := fset.Position(id.Pos())
			if !strings.HasPrefix(ps.Filename, repo) {
				continue
			}
			byFile[ps.Filename] = append(byFile[ps.Filename], ed{ps.Offset, ps.Offset + len(id.Name), to})
		}
	}
	out := map[string][]byte{}
	for k, v := range base {
		out[k] = v
	}
	for f, es := range byFile {
		b, ok := base[f]
		if !ok {
			var err error
			if b, err = os.ReadFile(f); err != nil {
				continue
			}
		}
		sort.Slice(es, func(a, b int) bool { return es[a].off > es[b].off })
		nb := append([]byte{}, b...)
		last := -1
		for _, e := range es {
			if e.off == last || e.end > len(nb) {
				continue
			}
			last = e.off
			nb = append(nb[:e.off], append([]byte(e.to), nb[e.end:]...)...)
		}
		out[f] = nb
	}
	return out
}

// ---- reference table -----------------------------------------------------------------------------------------------

func genAnchors(repo, file string) error {
	mod, err := loadModule(repo, nil)
	if err != nil {
		return err
	}
	ds := enumerateDecls(repo, mod, nil, false)
	var out []anchorDecl
	for _, d := range ds {
		out = append(out, d.anchorDecl)
	}
	b, _ := json.MarshalIndent(out, "", " ")
	return os.WriteFile(file, b, 0o644)
}

func readAnchors(file string) []anchorDecl {
	b, err := os.ReadFile(file)
	if err != nil {
		return nil
	}
	var out []anchorDecl
	if json.Unmarshal(b, &out) != nil {
		return nil
	}
	return out
}

// syntacticNames: every (scope, name) declared by the hand-written files of the tree (a superset of what the build sees).
func syntacticNames(repo string, overlay map[string][]byte) map[string]bool {
	names := map[string]bool{}
	fset := token.NewFileSet()
	filepath.Walk(repo, func(p string, fi os.FileInfo, err error) error {
		if err != nil {
			return nil
		}
		if fi.IsDir() {
			if b := fi.Name(); p != repo && (strings.HasPrefix(b, ".") || b == "vendor" || b == "testdata") {
				return filepath.SkipDir
			}
			return nil
		}
		if !handWrittenFile(repo, p) {
			return nil
		}
		var src interface{}
		if b, ok := overlay[p]; ok {
			src = b
		}
		f, err := parser.ParseFile(fset, p, src, parser.SkipObjectResolution)
		if err != nil {
			return nil
		}
		rel, _ := filepath.Rel(repo, filepath.Dir(p))
		if rel == "." {
			rel = ""
		}
		for _, d := range f.Decls {
			switch x := d.(type) {
			case *ast.FuncDecl:
				pn := func(scope string) {
					for _, fl := range []*ast.FieldList{x.Type.Params, x.Type.Results} {
						if fl != nil {
							for _, fd := range fl.List {
								for _, nm := range fd.Names {
									names[scope+"|"+x.Name.Name+"("+nm.Name+")"] = true
								}
							}
						}
					}
				}
				if x.Recv != nil && len(x.Recv.List) == 1 {
					t := x.Recv.List[0].Type
					if s, ok := t.(*ast.StarExpr); ok {
						t = s.X
					}
					if ix, ok := t.(*ast.IndexExpr); ok {
						t = ix.X
					}
					if id, ok := t.(*ast.Ident); ok {
						names[rel+"."+id.Name+"|"+x.Name.Name] = true
						pn(rel + "." + id.Name)
					}
				} else {
					names[rel+"|"+x.Name.Name] = true
					pn(rel)
				}
			case *ast.GenDecl:
				for _, sp := range x.Specs {
					switch s := sp.(type) {
					case *ast.TypeSpec:
						names[rel+"|"+s.Name.Name] = true
						switch t := s.Type.(type) {
						case *ast.StructType:
							for _, fd := range t.Fields.List {
								for _, nm := range fd.Names {
									names[rel+"."+s.Name.Name+"|"+nm.Name] = true
								}
							}
						case *ast.InterfaceType:
							for _, fd := range t.Methods.List {
								for _, nm := range fd.Names {
									names[rel+"."+s.Name.Name+"|"+nm.Name] = true
								}
							}
						}
					case *ast.ValueSpec:
						for _, nm := range s.Names {
							names[rel+"|"+nm.Name] = true
						}
					}
				}
			}
		}
		return nil
	})
	return names
}

// normaliseOverlay returns the overlay under which renamed declarations carry their reference names again, plus a
// description of what was renamed back (for the evidence). It returns base itself when nothing needs to be done.
func normaliseOverlay(repo string, base map[string][]byte, anchorsFile string) (map[string][]byte, []string) {
	ref := readAnchors(anchorsFile)
	if len(ref) == 0 {
		return base, nil
	}
	syn := syntacticNames(repo, base)
	missing := false
	for _, a := range ref {
		if !syn[a.Scope+"|"+a.Name] {
			missing = true
			break
		}
		for _, pn := range a.Params {
			if pn != "" && pn != "_" && !syn[a.Scope+"|"+a.Name+"("+pn+")"] {
				missing = true
			}
		}
	}
	if !missing {
		return base, nil
	}
	mod, err := loadModule(repo, base)
	if err != nil {
		return base, nil // the main load will report it
	}
	canon := map[types.Object]string{}
	var notes []string
	// two passes: types first (member scopes and signatures are rendered with the reference names of the types)
	for pass := 0; pass < 2; pass++ {
		cur := enumerateDecls(repo, mod, canon, false)
		curNames := map[string]bool{} // scope|kind|name
		for _, d := range cur {
			curNames[d.Scope+"|"+d.Kind+"|"+d.Name] = true
		}
		refNames := map[string]bool{}
		for _, a := range ref {
			refNames[a.Scope+"|"+a.Kind+"|"+a.Name] = true
		}
		type grp struct {
			r []anchorDecl
			n []declInfo
		}
		groups := map[string]*grp{}
		g := func(k string) *grp {
			if groups[k] == nil {
				groups[k] = &grp{}
			}
			return groups[k]
		}
		for _, a := range ref {
			if (pass == 0) != (a.Kind == "type") {
				continue
			}
			if !curNames[a.Scope+"|"+a.Kind+"|"+a.Name] {
				g(a.Scope + "|" + a.Kind).r = append(g(a.Scope+"|"+a.Kind).r, a)
			}
		}
		for _, d := range cur {
			if (pass == 0) != (d.Kind == "type") {
				continue
			}
			if _, done := canon[d.obj]; done {
				continue
			}
			if !refNames[d.Scope+"|"+d.Kind+"|"+d.Name] {
				g(d.Scope + "|" + d.Kind).n = append(g(d.Scope+"|"+d.Kind).n, d)
			}
		}
		var keys []string
		for k := range groups {
			keys = append(keys, k)
		}
		sort.Strings(keys)
		for _, k := range keys {
			gr := groups[k]
			if len(gr.r) == 0 || len(gr.n) == 0 {
				continue
			}
			usedN := map[int]bool{}
			for _, a := range gr.r {
				var sigEq, both []int
				for i, d := range gr.n {
					if usedN[i] || d.Sig != a.Sig {
						continue
					}
					sigEq = append(sigEq, i)
					if d.Shape == a.Shape {
						both = append(both, i)
					}
				}
				pick := -1
				switch {
				case len(both) == 1:
					pick = both[0]
				case len(sigEq) == 1:
					// the only candidate with this signature; make sure no other missing reference name competes for it
					n := 0
					for _, a2 := range gr.r {
						if a2.Sig == a.Sig {
							n++
						}
					}
					if n == 1 {
						pick = sigEq[0]
					}
				}
				if pick >= 0 {
					usedN[pick] = true
					canon[gr.n[pick].obj] = a.Name
					notes = append(notes, fmt.Sprintf("%s %s.%s is analysed under its reference name %s", a.Kind, a.Scope, gr.n[pick].Name, a.Name))
				}
			}
		}
	}
	// parameters and named results of functions (matched by reference name), by position
	{
		cur := enumerateDecls(repo, mod, canon, false)
		byKey := map[string]declInfo{}
		for _, d := range cur {
			if d.Kind == "func" || d.Kind == "method" {
				nm := d.Name
				if cn, ok := canon[d.obj]; ok {
					nm = cn
				}
				byKey[d.Scope+"|"+d.Kind+"|"+nm] = d
			}
		}
		for _, a := range ref {
			d, ok := byKey[a.Scope+"|"+a.Kind+"|"+a.Name]
			if !ok || len(a.Params) == 0 || d.Sig != a.Sig {
				continue
			}
			fo, _ := d.obj.(*types.Func)
			if fo == nil {
				continue
			}
			sig := fo.Type().(*types.Signature)
			var vars []*types.Var
			for k := 0; k < sig.Params().Len(); k++ {
				vars = append(vars, sig.Params().At(k))
			}
			for k := 0; k < sig.Results().Len(); k++ {
				vars = append(vars, sig.Results().At(k))
			}
			if len(vars) != len(a.Params) {
				continue
			}
			for k, v := range vars {
				if a.Params[k] != "" && a.Params[k] != "_" && v.Name() != "" && v.Name() != "_" && v.Name() != a.Params[k] {
					canon[v] = a.Params[k]
					notes = append(notes, fmt.Sprintf("parameter %s of %s.%s is analysed under its reference name %s", v.Name(), a.Scope, a.Name, a.Params[k]))
				}
			}
		}
	}
	if len(canon) == 0 {
		return base, nil
	}
	sort.Strings(notes)
	return applyRenames(repo, mod, canon, base), notes
}

// ---- rename sweep (forwards) ------------------------------------------------------------------------------------------

// genRenames writes one overlay directory per declaration; interface methods are renamed together with the methods of
// the module types that implement the interface (otherwise the tree would not type-check).
func genRenames(repo, outRoot string, withParams bool, suffix string) error {
	mod, err := loadModule(repo, nil)
	if err != nil {
		return err
	}
	ds := enumerateDecls(repo, mod, nil, withParams)
	// method groups through module interfaces
	parent := map[types.Object]types.Object{}
	var find func(o types.Object) types.Object
	find = func(o types.Object) types.Object {
		if parent[o] == nil || parent[o] == o {
			return o
		}
		r := find(parent[o])
		parent[o] = r
		return r
	}
	union := func(a, b types.Object) { parent[find(a)] = find(b) }
	var ifaces, concretes []*types.Named
	for _, p := range mod {
		sc := p.Types.Scope()
		for _, n := range sc.Names() {
			tn, ok := sc.Lookup(n).(*types.TypeName)
			if !ok || tn.IsAlias() {
				continue
			}
			nt, ok := tn.Type().(*types.Named)
			if !ok {
				continue
			}
			if _, isI := nt.Underlying().(*types.Interface); isI {
				ifaces = append(ifaces, nt)
			} else {
				concretes = append(concretes, nt)
			}
		}
	}
	for _, it := range ifaces {
		iface := it.Underlying().(*types.Interface)
		impls := append([]*types.Named{}, concretes...)
		impls = append(impls, ifaces...)
		for _, ct := range impls {
			if ct == it {
				continue
			}
			var T types.Type = ct
			if !types.Implements(T, iface) {
				T = types.NewPointer(ct)
				if _, isI := ct.Underlying().(*types.Interface); isI || !types.Implements(T, iface) {
					continue
				}
			}
			for i := 0; i < iface.NumMethods(); i++ {
				m := iface.Method(i)
				o, _, _ := types.LookupFieldOrMethod(T, true, m.Pkg(), m.Name())
				if f, ok := o.(*types.Func); ok {
					union(f, m)
				}
			}
		}
	}
	members := map[types.Object][]types.Object{}
	for o := range parent {
		members[find(o)] = append(members[find(o)], o)
	}
	for i, d := range ds {
		fmt.Printf("%04d %s:%s:%s\n", i, d.Kind, d.Scope, d.Name)
		if outRoot == "" {
			continue
		}
		ren := map[types.Object]string{d.obj: d.Name + suffix}
		for _, o := range members[find(d.obj)] {
			ren[o] = o.Name() + suffix
		}
		ov := applyRenames(repo, mod, ren, nil)
		dir := filepath.Join(outRoot, fmt.Sprintf("%04d", i))
		os.MkdirAll(dir, 0o755)
		os.WriteFile(filepath.Join(dir, "KEY"), []byte(fmt.Sprintf("%s:%s:%s\n", d.Kind, d.Scope, d.Name)), 0o644)
		for f, b := range ov {
			rel, _ := filepath.Rel(repo, f)
			out := filepath.Join(dir, "files", rel)
			os.MkdirAll(filepath.Dir(out), 0o755)
			os.WriteFile(out, b, 0o644)
		}
	}
	return nil
}
