package main

// Rules added after the sixth seeded round (small local edits; DESIGN §16).

import (
	"fmt"
	"go/token"
	"go/types"
	"strings"

	"golang.org/x/tools/go/ssa"
)

func isLastIndexKey(v ssa.Value) bool {
	for _, o := range origins(v, originOpt{}) {
		if g := globalOf(o); g != nil && strings.Contains(strings.ToLower(g.Name()), "lastindex") {
			return true
		}
	}
	return false
}

// isLastIndexStoreHelper: g's only call is sync.Map.Store under the last-index key, of one of its parameters.
func isLastIndexStoreHelper(g *ssa.Function) bool {
	if g == nil || !modLocal(g) || len(g.Blocks) == 0 || g.Parent() != nil {
		return false
	}
	calls, direct := 0, 0
	eachInstr(g, func(i ssa.Instruction) {
		if cl, ok := i.(*ssa.Call); ok {
			calls++
			id := callID(&cl.Call)
			if id.Recv == "Map" && id.Pkg == "sync" && id.Name == "Store" && len(cl.Call.Args) == 3 && isLastIndexKey(cl.Call.Args[1]) {
				if _, isP := strip(cl.Call.Args[2]).(*ssa.Parameter); isP {
					direct++
				}
			}
		}
	})
	return calls == 1 && direct == 1
}

// fromCachedLastIndex: v derives from sync.Map.Load under the last-index key (through type assertions and load helpers).
func fromCachedLastIndex(v ssa.Value, depth int) bool {
	if depth > 5 || v == nil {
		return false
	}
	switch y := strip(v).(type) {
	case *ssa.Extract:
		if ta, ok := y.Tuple.(*ssa.TypeAssert); ok {
			return fromCachedLastIndex(ta.X, depth+1)
		}
		if cl, ok := y.Tuple.(*ssa.Call); ok {
			id := callID(&cl.Call)
			if id.Recv == "Map" && id.Name == "Load" && len(cl.Call.Args) == 2 && isLastIndexKey(cl.Call.Args[1]) {
				return true
			}
			if g := cl.Call.StaticCallee(); g != nil && modLocal(g) && len(g.Blocks) > 0 {
				for _, rt := range returnsOf(g) {
					if y.Index < len(rt.Results) && fromCachedLastIndex(rt.Results[y.Index], depth+1) {
						return true
					}
				}
			}
		}
	case *ssa.Phi:
		for _, e := range y.Edges {
			if fromCachedLastIndex(e, depth+1) {
				return true
			}
		}
	case *ssa.UnOp:
		if al, ok := y.X.(*ssa.Alloc); ok && y.Op == token.MUL {
			for _, st := range storesTo(al.Parent(), al) {
				if fromCachedLastIndex(st.Val, depth+1) {
					return true
				}
			}
		}
	}
	return false
}

// ---- WAL: the cached last index is only lowered where the log is shortened ------------------------------------------------

// cachedLastIndexOnlyRaised: a function that stores the cached last index without deleting a tail of the log (no tail sweep)
// stores it only under a comparison with the value the cache holds: writing a snapshot's anchor must not pull the cached
// last index below entries that are still in the log — the replica would report a shorter log than it has made durable and
// vote for a candidate that lacks entries it acknowledged.
func cachedLastIndexOnlyRaised(c *Ctx, r *Report, rule string) {
	w := newWal(c)
	n := 0
	isDirectStore := func(cl *ssa.Call) bool {
		id := callID(&cl.Call)
		return id.Recv == "Map" && id.Pkg == "sync" && id.Name == "Store" && len(cl.Call.Args) == 3 && isLastIndexKey(cl.Call.Args[1])
	}
	// a store helper: its only call is the cache store, of one of its parameters (storeLastIndex(idx))
	storeHelper := map[*ssa.Function]bool{}
	for _, g := range w.funcs {
		if g.Parent() != nil {
			continue
		}
		calls, direct := 0, 0
		eachInstr(g, func(i ssa.Instruction) {
			if cl, ok := i.(*ssa.Call); ok {
				calls++
				if isDirectStore(cl) {
					if _, isP := strip(cl.Call.Args[2]).(*ssa.Parameter); isP {
						direct++
					}
				}
			}
		})
		if calls == 1 && direct == 1 {
			storeHelper[g] = true
		}
	}
	for _, f := range w.funcs {
		if f.Parent() != nil || storeHelper[f] {
			continue
		}
		var stores []*ssa.Call
		eachInstr(f, func(i ssa.Instruction) {
			cl, ok := i.(*ssa.Call)
			if !ok {
				return
			}
			if isDirectStore(cl) || (cl.Call.StaticCallee() != nil && storeHelper[cl.Call.StaticCallee()]) {
				stores = append(stores, cl)
			}
		})
		if len(stores) == 0 {
			continue
		}
		shortens := false
		eachInstr(f, func(i ssa.Instruction) {
			if cl, ok := i.(*ssa.Call); ok {
				if g := cl.Call.StaticCallee(); walSweeper(c, g) && !isHeadSweep(g) {
					shortens = true
				}
			}
		})
		if shortens {
			continue // an entry writer: after its tail sweep the stored index IS the last index
		}
		for k, st := range stores {
			n++
			guarded := false
			for _, ifi := range allIfs(f) {
				if !(guardedBy(st.Block(), ifi, true) || guardedBy(st.Block(), ifi, false)) {
					continue
				}
				b, ok := ifi.Cond.(*ssa.BinOp)
				if !ok || !isCmp(b.Op) {
					continue
				}
				for _, side := range []ssa.Value{b.X, b.Y} {
					if fromCachedLastIndex(side, 0) {
						guarded = true
					}
				}
			}
			r.Check(guarded, rule, fnName(f), fmt.Sprintf("cached-last-index-raise-only#%d", k+1), c.InstrPos(st), "outside the entry writer (which truncates the tail it replaces) the cached last index is stored only under a comparison with the cached value: an anchor written for a local snapshot lies below the log's end")
		}
	}
	if n == 0 {
		r.Unk(rule, "storage/wal", "cached-last-index", "-", "no store of the cached last index outside the entry writer found (the snapshot writer has one)")
	}
}

// ---- WAL: every decoded entry gets its own variable -----------------------------------------------------------------------

// decodedEntriesAreFresh: raftpb.Entry.Unmarshal does not reset its receiver, and appends to receiver.Data: the variable an
// entry is decoded into inside a loop is allocated in that loop (one per iteration).
func decodedEntriesAreFresh(c *Ctx, r *Report, rule string) {
	n := 0
	for _, f := range prodFuncs(c, "storage/wal") {
		eachInstr(f, func(i ssa.Instruction) {
			cl, ok := i.(*ssa.Call)
			if !ok {
				return
			}
			id := callID(&cl.Call)
			if id.Name != "Unmarshal" || id.Recv != "Entry" || len(cl.Call.Args) == 0 {
				return
			}
			recv := cl.Call.Args[0]
			// the cell: a local Alloc, or a captured variable of the enclosing function
			var cell *ssa.Alloc
			var site ssa.Instruction = cl
			host := f
			if al, isA := recv.(*ssa.Alloc); isA {
				cell = al
			} else if l, isL := loadOf(recv); isL {
				if fv, isF := l.(*ssa.FreeVar); isF && f.Parent() != nil {
					for k, v := range f.FreeVars {
						if v == fv {
							eachInstr(f.Parent(), func(z ssa.Instruction) {
								if mc, isM := z.(*ssa.MakeClosure); isM && mc.Fn == ssa.Value(f) && k < len(mc.Bindings) {
									if al, isA := mc.Bindings[k].(*ssa.Alloc); isA {
										cell, site, host = al, mc, f.Parent()
									}
								}
							})
						}
					}
				}
			} else if fv, isF := recv.(*ssa.FreeVar); isF && f.Parent() != nil {
				for k, v := range f.FreeVars {
					if v == fv {
						eachInstr(f.Parent(), func(z ssa.Instruction) {
							if mc, isM := z.(*ssa.MakeClosure); isM && mc.Fn == ssa.Value(f) && k < len(mc.Bindings) {
								if al, isA := mc.Bindings[k].(*ssa.Alloc); isA {
									cell, site, host = al, mc, f.Parent()
								}
							}
						})
					}
				}
			}
			if cell != nil && !inCycle(host, site) {
				// a decode helper: the variable is local to a function that a loop calls once per entry — fresh by construction
				calledInLoop := false
				for _, g := range prodFuncs(c, "storage/wal") {
					eachInstr(g, func(z ssa.Instruction) {
						if cc := asCall(z); cc != nil && cc.StaticCallee() == rootFn(host) && inCycle(g, z) {
							calledInLoop = true
						}
					})
				}
				if calledInLoop {
					n++
					r.OK(rule, fnName(host), "entry-decoded-into-fresh-variable", c.InstrPos(cl), "the entry is decoded into a variable local to a helper that the scan calls once per entry")
				}
				return
			}
			if cell == nil || !inCycle(host, site) {
				return
			}
			n++
			r.Check(inCycle(host, cell), rule, fnName(host), "entry-decoded-into-fresh-variable", c.InstrPos(cl), "an entry decoded inside a loop is decoded into a variable of that iteration: Unmarshal keeps the receiver's Data buffer, so a variable shared by the iterations makes every returned entry alias (and overwrite) the payload of the previous ones")
		})
	}
	if n == 0 {
		r.Unk(rule, "storage/wal", "entry-decode-loop", "-", "no loop decoding entries found")
	}
}

// ---- search fan-out: what the workers share they do not write -------------------------------------------------------------

// workersDoNotWriteSharedMessages: a pointer to a protobuf message that a `go` statement inside a loop hands to its worker,
// and that is the same value in every iteration, is not written by the worker.
func workersDoNotWriteSharedMessages(c *Ctx, r *Report, rule string) {
	n := 0
	for _, f := range prodFuncs(c, "storage") {
		eachInstr(f, func(i ssa.Instruction) {
			g, ok := i.(*ssa.Go)
			if !ok || !inCycle(f, g) {
				return
			}
			callee := g.Call.StaticCallee()
			if callee == nil || len(callee.Blocks) == 0 {
				return
			}
			n++
			bad := ""
			for j, a := range g.Call.Args {
				pt, isP := a.Type().Underlying().(*types.Pointer)
				if !isP || j >= len(callee.Params) {
					continue
				}
				nt := namedOf(pt.Elem())
				if nt == nil || nt.Obj().Pkg() == nil || !strings.HasSuffix(nt.Obj().Pkg().Path(), "/protobuf") {
					continue
				}
				if ai, isI := a.(ssa.Instruction); isI && inCycle(f, ai) {
					continue // built per iteration
				}
				p := callee.Params[j]
				eachInstr(callee, func(z ssa.Instruction) {
					if st, isS := z.(*ssa.Store); isS {
						if fa, isF := st.Addr.(*ssa.FieldAddr); isF && fa.X == ssa.Value(p) {
							bad = fmt.Sprintf("%s writes field %s of the shared %s at %s", fnName(callee), structField(fa.X.Type(), fa.Field).Name(), nt.Obj().Name(), c.InstrPos(st))
						}
					}
				})
			}
			r.Check(bad == "", rule, fnName(f), "shared-message-not-written", c.InstrPos(g), "a request message shared by the workers of one fan-out is not written by them ("+bad+"): concurrent workers overwrite each other's partition lists before the message is serialised, a node is asked for partitions it does not host and answers with an empty list and success")
		})
	}
	if n == 0 {
		r.Unk(rule, "storage", "fan-out", "-", "no `go` inside a loop found")
	}
}

// ---- a slice of the loop variable does not outlive the iteration ------------------------------------------------------------

// noRetainedSliceOfLoopVariable: under the module's language version (< 1.22) a range variable is one cell for the whole loop;
// slicing it (`id[:]` of an array-typed variable) and keeping the slice makes every kept slice alias the last element.
func noRetainedSliceOfLoopVariable(c *Ctx, r *Report, rule string, pkgs ...string) {
	n, bad := 0, 0
	for _, f := range prodFuncs(c, pkgs...) {
		eachInstr(f, func(i ssa.Instruction) {
			sl, ok := i.(*ssa.Slice)
			if !ok {
				return
			}
			al, isA := sl.X.(*ssa.Alloc)
			if !isA {
				return
			}
			if _, isArr := derefType(al.Type()).Underlying().(*types.Array); !isArr {
				return
			}
			// re-assigned inside a cycle, allocated outside of it
			reassigned := false
			for _, st := range storesTo(f, al) {
				if inCycle(f, st) {
					reassigned = true
				}
			}
			if !reassigned || inCycle(f, al) {
				return
			}
			n++
			kept := ""
			if sl.Referrers() != nil {
				for _, u := range *sl.Referrers() {
					switch y := u.(type) {
					case *ssa.Store:
						if y.Val == ssa.Value(sl) {
							if _, local := y.Addr.(*ssa.Alloc); !local {
								kept = "stored at " + c.InstrPos(y)
							}
						}
					case *ssa.Send:
						kept = "sent at " + c.InstrPos(y)
					case *ssa.MapUpdate:
						kept = "put into a map at " + c.InstrPos(y)
					case *ssa.Call:
						if callID(&y.Call).is("builtin", "", "append") {
							kept = "appended at " + c.InstrPos(y)
						}
					case *ssa.Go:
						kept = "handed to a goroutine at " + c.InstrPos(y)
					}
				}
			}
			if kept != "" {
				bad++
				r.Bad(rule, fnName(f), "slice-of-loop-variable", c.InstrPos(sl), "a slice of the loop's own variable is kept beyond the iteration ("+kept+"): all kept slices alias one array and end up holding the last element — the last partition is asked n times, the others never")
			}
		})
	}
	if bad == 0 {
		r.OK(rule, strings.Join(pkgs, ","), "slice-of-loop-variable", "-", fmt.Sprintf("%d slice(s) of re-assigned array variables; none is kept beyond its iteration", n))
	}
}

// ---- apply functions report the outcome, they do not return it ---------------------------------------------------------------

// appliedOutcomeIsNotAnApplyError: in the apply trees, the value handed to the waiting proposer (second argument of Notify) is
// never also the function's returned error: the Ready loop treats a returned error as fatal, and the entry is replayed on
// every restart — an "item not found" would stop every replica for good.
func appliedOutcomeIsNotAnApplyError(c *Ctx, r *Report, rule string) {
	ro := discoverRoles(c)
	reach := c.reachableFrom(ro.processFns, false, true)
	n := 0
	for f := range reach {
		if !modLocal(f) || !c.isProd(f) {
			continue
		}
		res := f.Signature.Results()
		if res.Len() == 0 || !isErrorType(res.At(res.Len()-1).Type()) {
			continue
		}
		var outcomes []ssa.Value
		eachInstr(f, func(i ssa.Instruction) {
			cl, ok := i.(*ssa.Call)
			if !ok {
				return
			}
			if id := callID(&cl.Call); id.Name == "Notify" && id.Recv == "Notificator" && len(cl.Call.Args) >= 3 {
				for _, o := range origins(cl.Call.Args[2], originOpt{}) {
					if !isNilConst(o) {
						if _, isC := o.(*ssa.Const); !isC {
							outcomes = append(outcomes, o)
						}
					}
				}
			}
		})
		if len(outcomes) == 0 {
			continue
		}
		n++
		bad := ""
		for _, rt := range returnsOf(f) {
			for _, o := range origins(rt.Results[len(rt.Results)-1], originOpt{}) {
				for _, oc := range outcomes {
					if o == oc {
						if _, isG := o.(*ssa.Global); isG {
							continue
						}
						bad = c.InstrPos(rt.Return)
					}
				}
			}
		}
		r.Check(bad == "", rule, fnName(f), "outcome-not-returned", c.Pos(f.Pos()), "the outcome an apply function reports to the proposer is not also returned to the Ready loop (returned at "+bad+"): a returned error is fatal there and the entry is in the log")
	}
	if n == 0 {
		r.Unk(rule, "apply trees", "notify", "-", "no apply function reporting an outcome found")
	}
}

// ---- persist: no success before the hard state has been staged ------------------------------------------------------------

// persistWritesHardStateBeforeSuccess: every return of the persist function that is not dominated by the call of the
// hard-state writer returns a non-nil error: a Ready that carries nothing but a new commit index (or term / vote) is
// persisted like any other.
func persistWritesHardStateBeforeSuccess(c *Ctx, r *Report, rule string) {
	f := persistFunction(c)
	if f == nil {
		r.Unk(rule, "storage/wal", "persist", "-", "persist function not found")
		return
	}
	hs := partConsumers(c, f, f.Params[1])
	if len(hs) == 0 {
		r.Unk(rule, fnName(f), "hard-state-writer", c.Pos(f.Pos()), "writer of the hard state not found")
		return
	}
	bad := ""
	for _, rt := range returnsOf(f) {
		dom := false
		for _, h := range hs {
			if instrDominates(h, rt.Return) {
				dom = true
			}
		}
		if dom {
			continue
		}
		for _, o := range origins(rt.Results[len(rt.Results)-1], originOpt{}) {
			if isNilConst(o) {
				bad = c.InstrPos(rt.Return)
			}
		}
	}
	r.Check(bad == "", rule, fnName(f), "no-success-before-hard-state", c.Pos(f.Pos()), "no successful return of the persist function precedes the hard-state writer (return nil at "+bad+"): with two or more voters the commit index of an acknowledged entry arrives in a Ready without entries; dropping it loses the acknowledged change on a restart without quorum")
}

// ---- allocator: load and unload are decided by the same test ----------------------------------------------------------------

// replicaLoadAndUnloadUseTheSameTest: in the allocator loop the start of a partition's replica (on watch) and its stop (on
// unwatch) are guarded by calls of one and the same predicate.
func replicaLoadAndUnloadUseTheSameTest(c *Ctx, r *Report, rule string) {
	grp := c.Named("storage/raft", "RaftGroup")
	var loaders, unloaders []*ssa.Function
	for _, f := range prodFuncs(c, "storage") {
		if f.Parent() != nil {
			continue
		}
		eachInstr(f, func(i ssa.Instruction) {
			cc := asCall(i)
			if cc == nil {
				return
			}
			if g := cc.StaticCallee(); g != nil && grp != nil && g.Signature.Recv() == nil && g.Signature.Results().Len() > 0 && namedOf(derefType(g.Signature.Results().At(0).Type())) == grp {
				loaders = appendUnique(loaders, f)
			}
			if cc.IsInvoke() && cc.Method.Name() == "DeleteGroup" {
				unloaders = appendUnique(unloaders, f)
			}
		})
	}
	n := 0
	for _, f := range prodFuncs(c, "storage") {
		if f.Parent() != nil || recvTypeName(f) != "Allocator" {
			continue
		}
		guardOf := func(set []*ssa.Function) (*ssa.Function, string) {
			var pred *ssa.Function
			pos := ""
			for _, h := range append([]*ssa.Function{f}, closuresOf(f)...) {
				eachInstr(h, func(i ssa.Instruction) {
					cc := asCall(i)
					if cc == nil || cc.StaticCallee() == nil {
						return
					}
					hit := false
					for _, s := range set {
						if cc.StaticCallee() == s {
							hit = true
						}
					}
					if !hit && cc.StaticCallee() != f && modLocal(cc.StaticCallee()) {
						// a helper of the allocator that wraps the start / stop (startPartitionReplica)
						for g := range c.reachableFrom([]*ssa.Function{cc.StaticCallee()}, false, true) {
							for _, s := range set {
								if g == s && fnPkgPath(cc.StaticCallee()) == fnPkgPath(f) {
									hit = true
								}
							}
						}
					}
					if !hit {
						return
					}
					// the site in f: the call itself, or the call of the closure that contains it
					var site ssa.Instruction = i
					if h != f {
						eachInstr(f, func(z ssa.Instruction) {
							if c2 := asCall(z); c2 != nil {
								for _, o := range origins(c2.Value, originOpt{}) {
									if mc, isM := o.(*ssa.MakeClosure); isM && mc.Fn == ssa.Value(h) {
										site = z
									}
								}
								if fn, isF := c2.Value.(*ssa.Function); isF && fn == h {
									site = z
								}
							}
						})
					}
					for _, ifi := range allIfs(f) {
						if cl, isC := ifi.Cond.(*ssa.Call); isC && cl.Call.StaticCallee() != nil && guardedBy(site.Block(), ifi, true) {
							pred = cl.Call.StaticCallee()
							pos = c.InstrPos(site)
						}
					}
				})
			}
			return pred, pos
		}
		lp, _ := guardOf(loaders)
		up, upos := guardOf(unloaders)
		if lp == nil && up == nil {
			continue
		}
		n++
		r.Check(lp != nil && lp == up, rule, fnName(f), "load-unload-same-test", upos, fmt.Sprintf("the replica of a partition is stopped under the same test that started it (start: %v, stop: %v): a node that started a replica because it is in the partition's node list must stop it when the dataset goes, whoever may modify the partition", fnNameOrNil(lp), fnNameOrNil(up)))
	}
	if n == 0 {
		r.Unk(rule, "storage.Allocator", "loop", "-", "the allocator's load / unload sites were not found")
	}
}

func fnNameOrNil(f *ssa.Function) string {
	if f == nil {
		return "none"
	}
	return fnName(f)
}

// ---- size: the collector expects as many messages as are produced -----------------------------------------------------------

// sizeCollectorBound: the loop that collects the per-partition messages of the size function runs len(partitions) times
// (both branches of the producer loop send one), or is bounded by a counter incremented on every path of the producer loop.
func sizeCollectorBound(c *Ctx, r *Report, rule string) {
	f := c.Method("storage", "Dataset", "SizeInfo")
	fParts := c.Field("storage", "Dataset", "partitions")
	if f == nil || fParts == nil {
		r.Unk(rule, "storage.Dataset", "SizeInfo", "-", "size function not found")
		return
	}
	n := 0
	eachInstr(f, func(i ssa.Instruction) {
		sel, ok := i.(*ssa.Select)
		if !ok || !inCycle(f, sel) {
			return
		}
		// the counter test that controls this loop
		for _, ifi := range allIfs(f) {
			b, ok := ifi.Cond.(*ssa.BinOp)
			if !ok || !isCmp(b.Op) || !ifi.Block().Dominates(sel.Block()) {
				continue
			}
			ph, isP := b.X.(*ssa.Phi)
			if !isP || len(ph.Edges) != 2 {
				continue
			}
			n++
			ok2 := false
			why := ""
			for _, o := range origins(b.Y, originOpt{}) {
				if cl, isC := o.(*ssa.Call); isC && callID(&cl.Call).is("builtin", "", "len") && fieldOfValue(cl.Call.Args[0]) == fParts {
					ok2 = true
				} else if p2, isP2 := o.(*ssa.Phi); isP2 {
					// a counter: its increment must come before every message the producer loop sends or spawns a sender for
					why = "bounded by the counter " + p2.Comment
					inc := 0
					all := true
					for _, e := range p2.Edges {
						bo, isB := e.(*ssa.BinOp)
						if !isB || bo.Op != token.ADD {
							continue
						}
						inc++
						eachInstr(f, func(z ssa.Instruction) {
							switch z.(type) {
							case *ssa.Send, *ssa.Go:
								if _, same := reachesAvoiding(f, z, func(q ssa.Instruction) bool { return q == ssa.Instruction(bo) }, nil); same && z.Parent() == f && inCycle(f, z) && !bo.Block().Dominates(z.Block()) {
									all = false
								}
							}
						})
					}
					ok2 = inc > 0 && all
				} else if _, isK := o.(*ssa.Const); !isK {
					why = "bounded by " + o.String()
				}
			}
			r.Check(ok2, rule, fnName(f), "collector-bound", c.InstrPos(sel), "the collector of the size function expects one message per partition ("+why+"): with a smaller bound it stops after the local tokens, returns the local sum as the dataset's size and never sees a failed remote lookup")
		}
	})
	if n == 0 {
		r.Unk(rule, fnName(f), "collector", "-", "collector loop not found")
	}
}

// loopControl: the If is a loop's own continuation test (range index < len, counter < bound) rather than a branch of its body.
func loopControl(ifi *ssa.If) bool {
	b, ok := ifi.Cond.(*ssa.BinOp)
	if !ok {
		return false
	}
	_, isPhi := b.X.(*ssa.Phi)
	if u, isU := b.X.(*ssa.BinOp); isU && u.Op == token.ADD {
		_, isPhi = u.X.(*ssa.Phi)
	}
	return isPhi
}

// ---- proposals carry a deadline ------------------------------------------------------------------------------------------

// proposalsCarryDeadline: every context handed to a raft proposal in the storage layer carries a deadline: raft blocks the
// proposer while the group has no leader, and the proposer holds the partition's raft lock meanwhile — which the allocator
// needs to unload the partition, and the zero group's apply loop waits for the allocator.
func proposalsCarryDeadline(c *Ctx, r *Report, rule string) {
	n := 0
	for _, f := range prodFuncs(c, "storage") {
		k := 0
		ff := f
		eachInstr(f, func(i ssa.Instruction) {
			cl, ok := i.(*ssa.Call)
			if !ok {
				return
			}
			name := ""
			if cl.Call.IsInvoke() {
				name = cl.Call.Method.Name()
			} else if g := cl.Call.StaticCallee(); g != nil && strings.HasSuffix(fnPkgPath(g), "storage/raft") {
				name = g.Name()
			}
			if name != "Propose" {
				return
			}
			var ctxArg ssa.Value
			for _, a := range cl.Call.Args {
				if typeName(a.Type()) == "Context" {
					ctxArg = a
				}
			}
			if ctxArg == nil {
				return
			}
			n++
			k++
			r.Check(deadlineCtxIn(c, ff, ctxArg, 0), rule, fnName(f), fmt.Sprintf("proposal-deadline#%d", k), c.InstrPos(cl), "the context of a raft proposal carries a deadline (WithTimeout / WithDeadline here or in every caller): a proposal to a group without a leader otherwise blocks for as long as the client's context lives, holding the partition's raft lock")
		})
	}
	if n == 0 {
		r.Unk(rule, "storage", "proposals", "-", "no raft proposal found")
	}
}

// ---- queues: a queue handed out is a heap ------------------------------------------------------------------------------------

// queuesAreHeapifiedOnEveryPath: every function of the queue package that allocates a queue's array and returns the wrapper
// passes, on every path from the allocation to the return, through heap.Init — itself, or in a callee that calls heap.Init on
// its parameter on every one of its paths.
func queuesAreHeapifiedOnEveryPath(c *Ctx, r *Report, rule string) {
	isInit := func(i ssa.Instruction) bool {
		cc := plainCall(i)
		return cc != nil && callID(cc).is("container/heap", "", "Init")
	}
	initAlways := map[*ssa.Function]bool{}
	for _, g := range prodFuncs(c, "utils") {
		if g.Parent() != nil || len(g.Blocks) == 0 {
			continue
		}
		has := false
		eachInstr(g, func(i ssa.Instruction) {
			if isInit(i) {
				has = true
			}
		})
		if !has {
			continue
		}
		_, escapes := reachesAvoidingFrom(g, g.Blocks[0].Instrs[0], func(i ssa.Instruction) bool { _, ok := i.(*ssa.Return); return ok }, isInit)
		initAlways[g] = !escapes
	}
	heapifies := func(i ssa.Instruction) bool {
		if isInit(i) {
			return true
		}
		if cc := asCall(i); cc != nil && cc.StaticCallee() != nil && initAlways[cc.StaticCallee()] {
			return true
		}
		return false
	}
	n := 0
	for _, f := range prodFuncs(c, "utils") {
		if f.Parent() != nil || f.Signature.Results().Len() != 1 || typeName(f.Signature.Results().At(0).Type()) != "PriorityQueue" {
			continue
		}
		k := 0
		eachInstr(f, func(i ssa.Instruction) {
			// allocation of a queue array: make(queueType, …) or a local of queue type
			isAlloc := false
			switch y := i.(type) {
			case *ssa.MakeSlice:
				if nt := namedOf(y.Type()); nt != nil && strings.HasSuffix(nt.Obj().Pkg().Path(), "/utils") {
					isAlloc = true
				}
			case *ssa.ChangeType:
				// a fresh plain slice converted to the queue type (queueType(cloneItems(src)))
				if nt := namedOf(y.Type()); nt != nil && nt.Obj().Pkg() != nil && strings.HasSuffix(nt.Obj().Pkg().Path(), "/utils") {
					if _, isSl := nt.Underlying().(*types.Slice); isSl {
						if fresh, _ := freshSlice(y.X); fresh {
							isAlloc = true
						}
					}
				}
			case *ssa.Slice:
				// make(T, constant) is built as a fixed array plus a slice of it
				if al, isA := y.X.(*ssa.Alloc); isA && (al.Comment == "makeslice" || al.Comment == "slicelit") {
					if nt := namedOf(y.Type()); nt != nil && nt.Obj().Pkg() != nil && strings.HasSuffix(nt.Obj().Pkg().Path(), "/utils") {
						isAlloc = true
					}
				}
			}
			if !isAlloc {
				return
			}
			n++
			k++
			hit, escapes := reachesAvoiding(f, i, func(z ssa.Instruction) bool { _, ok := z.(*ssa.Return); return ok }, heapifies)
			pos := c.InstrPos(i)
			if escapes {
				pos = c.InstrPos(hit)
			}
			r.Check(!escapes, rule, fnName(f), fmt.Sprintf("heapified#%d", k), pos, "every path from the allocation of a queue's array to the return of the queue passes heap.Init (directly or in a helper that always calls it): a copied array that is not re-ordered keeps the source's order — the reversed queue pops from the wrong end")
		})
	}
	if n < 3 {
		r.Unk(rule, "utils", "queue-allocations", "-", fmt.Sprintf("only %d queue allocation(s) found (two constructors and two Reverse arms on the reference tree)", n))
	}
}

// ---- address book: the delete depends on the book only -----------------------------------------------------------------------

func addressBookDeleteDependsOnBookOnly(c *Ctx, r *Report, rule string) {
	fAddr := c.Field("cluster", "Conn", "addresses")
	if fAddr == nil {
		r.Unk(rule, "cluster.Conn", "addresses", "-", "address book field not found")
		return
	}
	n := 0
	for _, f := range prodFuncs(c, "cluster") {
		if f.Parent() != nil {
			continue
		}
		var dels []ssa.Instruction
		eachInstr(f, func(i ssa.Instruction) {
			if cc := plainCall(i); cc != nil && callID(cc).is("builtin", "", "delete") && len(cc.Args) == 2 && fieldOfValue(cc.Args[0]) == fAddr {
				dels = append(dels, i)
			}
		})
		if len(dels) == 0 {
			continue
		}
		n++
		bad := ""
		for _, ifi := range allIfs(f) {
			before := false
			for _, d := range dels {
				if guardedBy(d.Block(), ifi, true) || guardedBy(d.Block(), ifi, false) {
					before = true
				}
			}
			if !before {
				continue
			}
			for _, l := range condLeaves(ifi.Cond, 0) {
				switch y := strip(l).(type) {
				case *ssa.Lookup:
					if fieldOfValue(y.X) != fAddr {
						bad = "lookup in " + path(y.X) + " at " + c.InstrPos(ifi)
					}
				case *ssa.Extract:
					if lk, isL := y.Tuple.(*ssa.Lookup); isL && fieldOfValue(lk.X) != fAddr {
						bad = "lookup in " + path(lk.X) + " at " + c.InstrPos(ifi)
					}
				case *ssa.UnOp:
					if fv := fieldOfValue(y); fv != nil && fv != fAddr {
						bad = "field " + fv.Name() + " at " + c.InstrPos(ifi)
					}
				}
			}
		}
		r.Check(bad == "", rule, fnName(f), "delete-guards", c.Pos(f.Pos()), "the removal of a node from the address book is decided by the book alone ("+bad+"): a member that never dialled the removed node — a follower, or any member replaying its log after a restart — has no cached connection to it and would keep listing it")
	}
	if n == 0 {
		r.Unk(rule, "cluster", "address-book-delete", "-", "no function deleting from the address book found")
	}
}

// ---- an error test on a value that can only be nil ----------------------------------------------------------------------------

// noErrorTestOnConstantNil: an `if err != nil` whose operand is the constant nil on every path tests a variable that is
// never assigned — the assignment went to a shadowing variable of an inner scope, and the failure it was meant to report is
// swallowed.
func noErrorTestOnConstantNil(c *Ctx, r *Report, rule string, pkgs ...string) {
	n, bad := 0, 0
	for _, f := range prodFuncs(c, pkgs...) {
		for _, ifi := range allIfs(f) {
			b, ok := ifi.Cond.(*ssa.BinOp)
			if !ok || (b.Op != token.NEQ && b.Op != token.EQL) {
				continue
			}
			var v ssa.Value
			if isNilConst(b.Y) {
				v = b.X
			} else if isNilConst(b.X) {
				v = b.Y
			}
			if v == nil || !isErrorType(v.Type()) {
				continue
			}
			n++
			os := origins(v, originOpt{})
			all := len(os) > 0
			for _, o := range os {
				if !isNilConst(o) {
					all = false
				}
			}
			if all {
				bad++
				r.Bad(rule, fnName(f), "error-test-on-nil", c.Pos(b.Pos()), "this error test can never fire: the tested variable is nil on every path (the failure was assigned to a shadowing variable of an inner scope): the function reports success whatever happened")
			}
		}
	}
	if bad == 0 {
		r.OK(rule, strings.Join(pkgs, ","), "error-test-on-nil", "-", fmt.Sprintf("%d error tests; none is on a value that is constantly nil", n))
	}
}

// ---- wiring --------------------------------------------------------------------------------------------------------------------

func round6(c *Ctx, r *Report, prop string) {
	switch prop {
	case "C03":
		r.Rule("C03.R12", "an append is acknowledged to the leader only after it is durable here: messages leave after the persist call unless this node leads (borrowed from C05.R1)", 1)
		borrow(c, r, "C05", "C05.R1", "C03.R12", "send")
		r.Rule("C03.R13", "recovery order: the stored snapshot is applied before the Ready loop is spawned, on the caller's goroutine (borrowed from C04.R2)", 1)
		borrow(c, r, "C04", "C04.R2", "C03.R13", "")
	case "C04":
		r.Rule("C04.R10", "a conflicting tail is really truncated on every replica (borrowed from C06.R11)", 1)
		borrow(c, r, "C06", "C06.R11", "C04.R10", "old-last-index-read-first")
	case "C05":
		r.Rule("C05.R14", "the cached last index is only lowered where the log is shortened", 1)
		cachedLastIndexOnlyRaised(c, r, "C05.R14")
	case "C06":
		r.Rule("C06.R17", "the cached last index is only lowered where the log is shortened", 1)
		cachedLastIndexOnlyRaised(c, r, "C06.R17")
		r.Rule("C06.R18", "every entry of a range read is decoded into its own variable", 1)
		decodedEntriesAreFresh(c, r, "C06.R18")
	case "C07":
		r.Rule("C07.R9", "distances are non-negative (the queues refuse negative priorities): borrowed from C12.R2", 1)
		borrow(c, r, "C12", "C12.R2", "C07.R9", "non-negative-distance")
		r.Rule("C07.R10", "the first insert publishes the entry point by compare-and-swap (borrowed from C13.R3): a delayed first writer must not replace a graph that others have built", 1)
		borrow(c, r, "C13", "C13.R3", "C07.R10", "")
	case "C09":
		r.Rule("C09.R8", "what the workers of one fan-out share they do not write", 1)
		workersDoNotWriteSharedMessages(c, r, "C09.R8")
		r.Rule("C09.R9", "no slice of a loop variable is kept beyond its iteration (language version < 1.22)", 1)
		noRetainedSliceOfLoopVariable(c, r, "C09.R9", "storage", "services")
	case "C12":
		r.Rule("C12.R11", "an apply function reports the outcome of the index operation to the proposer and does not return it to the Ready loop", 3)
		appliedOutcomeIsNotAnApplyError(c, r, "C12.R11")
	case "C13":
		r.Rule("C13.R9", "the tombstone is set where the id leaves the shard map", 1)
		tombstoneSetWithMapDelete(c, r, "C13.R9")
	case "C14":
		r.Rule("C14.R12", "no success of the persist function before the hard state is staged", 1)
		persistWritesHardStateBeforeSuccess(c, r, "C14.R12")
		r.Rule("C14.R13", "the replica of a partition is stopped under the same test that started it", 1)
		replicaLoadAndUnloadUseTheSameTest(c, r, "C14.R13")
	case "C16":
		r.Rule("C16.R8", "the zero group's conf-change handler removes the node the change names (borrowed from C20.R2)", 1)
		borrow(c, r, "C20", "C20.R2", "C16.R8", "handler-arguments")
	case "C17":
		r.Rule("C17.R10", "the collector of the size function expects one message per partition", 1)
		sizeCollectorBound(c, r, "C17.R10")
	case "C18":
		r.Rule("C18.R9", "every raft proposal of the storage layer carries a deadline", 3)
		proposalsCarryDeadline(c, r, "C18.R9")
	case "C19":
		r.Rule("C19.R6", "a queue handed out is a heap: heap.Init on every path from the allocation of its array", 3)
		queuesAreHeapifiedOnEveryPath(c, r, "C19.R6")
	case "C20":
		r.Rule("C20.R11", "the removal of a node from the address book is decided by the book alone", 1)
		addressBookDeleteDependsOnBookOnly(c, r, "C20.R11")
		r.Rule("C20.R12", "no error test on a value that is constantly nil (a shadowed error swallows a failed join)", 1)
		noErrorTestOnConstantNil(c, r, "C20.R12", "storage/raft", "cluster", "")
	case "C03x":
	}
}

// ---- index: the tombstone is set where the id leaves the map ----------------------------------------------------------------

// tombstoneSetWithMapDelete: the function that deletes an id from a shard of the id map also sets the removed vertex's
// tombstone (itself or through the setter), i.e. inside the shard's critical section: between the two a reader is told
// "not found" while a search can still return the vertex as live.
func tombstoneSetWithMapDelete(c *Ctx, r *Report, rule string) {
	x := newIdx(c)
	if len(x.missing) > 0 {
		r.Unk(rule, "index", "anchors", "-", "index anchors missing")
		return
	}
	setsFlag := func(g *ssa.Function) bool {
		hit := false
		eachInstr(g, func(i ssa.Instruction) {
			if cc := plainCall(i); cc != nil {
				if id := callID(cc); id.Pkg == "sync/atomic" && strings.HasPrefix(id.Name, "Store") && len(cc.Args) > 0 && fieldOfAddr(cc.Args[0]) == x.fDeleted {
					hit = true
				}
			}
			if st, ok := i.(*ssa.Store); ok && fieldOfAddr(st.Addr) == x.fDeleted {
				hit = true
			}
		})
		return hit
	}
	n := 0
	for _, f := range x.funcs {
		if f.Parent() != nil {
			continue
		}
		var del ssa.Instruction
		eachInstr(f, func(i ssa.Instruction) {
			if cc := plainCall(i); cc != nil && callID(cc).is("builtin", "", "delete") && len(cc.Args) == 2 {
				if m, ok := cc.Args[0].Type().Underlying().(*types.Map); ok && namedOf(derefType(m.Elem())) == x.vertex && namedOf(m.Key()) != x.vertex {
					del = i
				}
			}
		})
		if del == nil {
			continue
		}
		n++
		ok := setsFlag(f)
		if !ok {
			eachInstr(f, func(i ssa.Instruction) {
				if cc := asCall(i); cc != nil && cc.StaticCallee() != nil && modLocal(cc.StaticCallee()) && setsFlag(cc.StaticCallee()) {
					ok = true
				}
			})
		}
		r.Check(ok, rule, fnName(f), "tombstone-with-delete", c.InstrPos(del), "the tombstone is set by the function that takes the id out of the shard map (under that shard's lock): set later, a reader gets `not found` and a decremented count while searches still return the item as live")
	}
	if n == 0 {
		r.Unk(rule, "index", "shard-delete", "-", "no function deleting from a shard map found")
	}
}
