package main

import (
	"fmt"
	"go/ast"
	"go/token"
	"go/types"
	"os"
	"path/filepath"
	"regexp"
	"sort"
	"strings"

	"golang.org/x/tools/go/callgraph"
	"golang.org/x/tools/go/callgraph/cha"
	"golang.org/x/tools/go/callgraph/vta"
	"golang.org/x/tools/go/packages"
	"golang.org/x/tools/go/ssa"
	"golang.org/x/tools/go/ssa/ssautil"
)

const modPath = "github.com/marekgalovic/anndb"

// Ctx is the loaded, type-checked, SSA-built view of /repo's current working tree.
type Ctx struct {
	Repo     string
	Fset     *token.FileSet
	Pkgs     []*packages.Package // module packages only
	AllPkgs  map[string]*packages.Package
	Prog     *ssa.Program
	ModFuncs []*ssa.Function // every function (incl. closures) whose package is in the module, hand written
	AllFuncs map[*ssa.Function]bool

	cg, chaG   *callgraph.Graph
	Stats      map[string]int
	Overlay    map[string][]byte
	Normalised []string // declarations analysed under their reference names (alpha-normalisation), for the evidence
}

type LoadOpts struct {
	AnchorsFile string // reference table for alpha-normalisation ("" = off)
	Tests       bool
	Env         []string
	Overlay     map[string][]byte
}

func Load(repo string, o LoadOpts) (*Ctx, error) {
	if o.AnchorsFile != "" {
		af := o.AnchorsFile
		o.AnchorsFile = ""
		if nov, notes := normaliseOverlay(repo, o.Overlay, af); len(notes) > 0 {
			o2 := o
			o2.Overlay = nov
			if c, err := Load(repo, o2); err == nil {
				c.Normalised = notes
				return c, nil
			}
			// the normalised program does not type-check: analyse the tree as it is
		}
	}
	os.Unsetenv("GOWORK")
	env := append(os.Environ(), "GOFLAGS=-mod=mod", "GOPROXY=off", "GOSUMDB=off", "GOTOOLCHAIN=local", "GOWORK=off")
	env = append(env, o.Env...)
	cfg := &packages.Config{
		Mode:    packages.LoadAllSyntax,
		Dir:     repo,
		Env:     env,
		Tests:   o.Tests,
		Overlay: o.Overlay,
	}
	pkgs, err := packages.Load(cfg, "./...")
	if err != nil {
		return nil, fmt.Errorf("packages.Load: %v", err)
	}
	c := &Ctx{Repo: repo, AllPkgs: map[string]*packages.Package{}, Stats: map[string]int{}, Overlay: o.Overlay}
	var errs []string
	packages.Visit(pkgs, nil, func(p *packages.Package) {
		c.AllPkgs[p.ID] = p
		if strings.HasPrefix(p.PkgPath, modPath) {
			for _, e := range p.Errors {
				errs = append(errs, e.Error())
			}
		}
	})
	if len(errs) > 0 {
		return nil, fmt.Errorf("type errors in module packages: %s", strings.Join(errs, "; "))
	}
	for _, p := range pkgs {
		if strings.HasPrefix(p.PkgPath, modPath) {
			c.Pkgs = append(c.Pkgs, p)
		}
	}
	if len(c.Pkgs) < 19 {
		return nil, fmt.Errorf("only %d module packages loaded (expected >= 19)", len(c.Pkgs))
	}
	if len(pkgs) > 0 {
		c.Fset = pkgs[0].Fset
	}
	prog, _ := ssautil.AllPackages(pkgs, ssa.InstantiateGenerics)
	prog.Build()
	c.Prog = prog
	c.AllFuncs = ssautil.AllFunctions(prog)
	for fn := range c.AllFuncs {
		if fn.Pkg == nil && fn.Parent() == nil {
			continue
		}
		pk := fnPkgPath(fn)
		if !strings.HasPrefix(pk, modPath) {
			continue
		}
		if fn.Synthetic != "" {
			continue
		}
		if strings.HasSuffix(c.fileOf(fn.Pos()), ".pb.go") {
			continue
		}
		c.ModFuncs = append(c.ModFuncs, fn)
	}
	sort.Slice(c.ModFuncs, func(i, j int) bool {
		a, b := c.ModFuncs[i], c.ModFuncs[j]
		if a.String() != b.String() {
			return a.String() < b.String()
		}
		return a.Pos() < b.Pos()
	})
	c.Stats["packages"] = len(c.Pkgs)
	c.Stats["module_functions"] = len(c.ModFuncs)
	c.Stats["all_functions"] = len(c.AllFuncs)
	return c, nil
}

func fnPkgPath(fn *ssa.Function) string {
	for fn.Parent() != nil {
		fn = fn.Parent()
	}
	if fn.Pkg != nil {
		return fn.Pkg.Pkg.Path()
	}
	if fn.Object() != nil && fn.Object().Pkg() != nil {
		return fn.Object().Pkg().Path()
	}
	return ""
}

func (c *Ctx) CG() *callgraph.Graph {
	if c.cg == nil {
		c.cg = vta.CallGraph(c.AllFuncs, c.CHA())
		c.Stats["vta_nodes"] = len(c.cg.Nodes)
	}
	return c.cg
}

func (c *Ctx) CHA() *callgraph.Graph {
	if c.chaG == nil {
		c.chaG = cha.CallGraph(c.Prog)
	}
	return c.chaG
}

func (c *Ctx) fileOf(p token.Pos) string {
	if !p.IsValid() || c.Fset == nil {
		return ""
	}
	return c.Fset.Position(p).Filename
}

// Pos renders a position relative to the repo root.
func (c *Ctx) Pos(p token.Pos) string {
	if !p.IsValid() {
		return "-"
	}
	ps := c.Fset.Position(p)
	f := ps.Filename
	if r, err := filepath.Rel(c.Repo, f); err == nil && !strings.HasPrefix(r, "..") {
		f = r
	}
	return fmt.Sprintf("%s:%d", f, ps.Line)
}

func (c *Ctx) InstrPos(i ssa.Instruction) string {
	p := i.Pos()
	if !p.IsValid() {
		// fall back to any operand position / the function
		if v, ok := i.(ssa.Value); ok {
			_ = v
		}
		if i.Parent() != nil {
			return c.Pos(i.Parent().Pos()) + "(fn)"
		}
	}
	return c.Pos(p)
}

// Pkg finds the module package whose path is modPath + "/" + rel (rel "" = root).
func (c *Ctx) Pkg(rel string) *packages.Package {
	want := modPath
	if rel != "" {
		want += "/" + rel
	}
	for _, p := range c.Pkgs {
		if p.PkgPath == want && !strings.Contains(p.ID, "[") && !strings.HasSuffix(p.ID, ".test") {
			return p
		}
	}
	for _, p := range c.Pkgs {
		if p.PkgPath == want {
			return p
		}
	}
	return nil
}

func (c *Ctx) SSAPkg(rel string) *ssa.Package {
	p := c.Pkg(rel)
	if p == nil {
		return nil
	}
	return c.Prog.Package(p.Types)
}

// Named looks a named type up.
func (c *Ctx) Named(rel, name string) *types.Named {
	p := c.Pkg(rel)
	if p == nil {
		return nil
	}
	o := p.Types.Scope().Lookup(name)
	if o == nil {
		return nil
	}
	n, _ := o.Type().(*types.Named)
	return n
}

// Method returns the SSA function for method `name` of type rel.typ (pointer or value receiver).
func (c *Ctx) Method(rel, typ, name string) *ssa.Function {
	n := c.Named(rel, typ)
	if n == nil {
		return nil
	}
	for _, t := range []types.Type{types.NewPointer(n), n} {
		ms := c.Prog.MethodSets.MethodSet(t)
		if sel := ms.Lookup(n.Obj().Pkg(), name); sel != nil {
			f := c.Prog.MethodValue(sel)
			if f != nil && f.Synthetic == "" {
				return f
			}
			// wrapper (promoted / pointer wrapper): find the declared one
			if fo, ok := sel.Obj().(*types.Func); ok {
				if ff := c.Prog.FuncValue(fo); ff != nil {
					return ff
				}
			}
		}
	}
	return nil
}

func (c *Ctx) Func(rel, name string) *ssa.Function {
	sp := c.SSAPkg(rel)
	if sp == nil {
		return nil
	}
	return sp.Func(name)
}

// Field returns the *types.Var of a struct field.
func (c *Ctx) Field(rel, typ, field string) *types.Var {
	n := c.Named(rel, typ)
	if n == nil {
		return nil
	}
	st, ok := n.Underlying().(*types.Struct)
	if !ok {
		return nil
	}
	for i := 0; i < st.NumFields(); i++ {
		if st.Field(i).Name() == field {
			return st.Field(i)
		}
	}
	return c.fieldByTypeHint(st, typ, field)
}

// FuncsInPkg lists hand-written functions of one package (incl. closures).
func (c *Ctx) FuncsInPkg(rel string) []*ssa.Function {
	want := modPath
	if rel != "" {
		want += "/" + rel
	}
	var out []*ssa.Function
	for _, f := range c.ModFuncs {
		if fnPkgPath(f) == want {
			out = append(out, f)
		}
	}
	return out
}

// isProduction: not a test file, not under cmd/.
func (c *Ctx) isProd(fn *ssa.Function) bool {
	f := c.fileOf(rootFn(fn).Pos())
	if strings.HasSuffix(f, "_test.go") {
		return false
	}
	pk := fnPkgPath(fn)
	if strings.HasPrefix(pk, modPath+"/cmd/") {
		return false
	}
	return true
}

func rootFn(fn *ssa.Function) *ssa.Function {
	for fn.Parent() != nil {
		fn = fn.Parent()
	}
	return fn
}

// fnName gives a stable display/identity name: pkgrel.(Recv).Name[$n]
func fnName(fn *ssa.Function) string {
	if fn == nil {
		return "<nil>"
	}
	s := fn.String()
	s = strings.ReplaceAll(s, modPath+"/", "")
	s = strings.ReplaceAll(s, modPath+".", "anndb.")
	return s
}

// AST helpers -----------------------------------------------------------------

// FuncDecl finds the AST declaration of an SSA function (nil for closures).
func (c *Ctx) FuncDecl(fn *ssa.Function) *ast.FuncDecl {
	if d, ok := fn.Syntax().(*ast.FuncDecl); ok {
		return d
	}
	return nil
}

func (c *Ctx) PkgOfFn(fn *ssa.Function) *packages.Package {
	path := fnPkgPath(fn)
	for _, p := range c.Pkgs {
		if p.PkgPath == path && p.Types == rootFn(fn).Pkg.Pkg {
			return p
		}
	}
	for _, p := range c.Pkgs {
		if p.PkgPath == path {
			return p
		}
	}
	return nil
}

// fieldTypeHint: the type each name-anchored field has on the reference tree. When a field is renamed, Field() falls back
// to the unique field of the struct with this type (array lengths are ignored); with two candidates the anchor stays lost.
var fieldTypeHint = map[string]string{
	"Dataset.partitions":      "[]*github.com/marekgalovic/anndb/storage.partition",
	"Notificator.chans":       "map[github.com/satori/go.uuid.UUID]chan interface{}",
	"Dataset.meta":            "*github.com/marekgalovic/anndb/protobuf.Dataset",
	"hnswVertex.vector":       "github.com/marekgalovic/anndb/math.Vector",
	"hnswVertex.edges":        "[]github.com/marekgalovic/anndb/index.hnswEdgeSet",
	"Hnsw.vertices":           "[N]map[github.com/satori/go.uuid.UUID]*github.com/marekgalovic/anndb/index.hnswVertex",
	"priorityQueue.queue":     "container/heap.Interface",
	"Notificator.mu":          "*sync.RWMutex",
	"badgerWAL.groupId":       "github.com/satori/go.uuid.UUID",
	"badgerWAL.cache":         "*sync.Map",
	"RaftGroup.raftLeaderId":  "uint64",
	"RaftGroup.raftConfState": "*github.com/coreos/etcd/raft/raftpb.ConfState",
	"DatasetManager.datasets": "map[github.com/satori/go.uuid.UUID]*github.com/marekgalovic/anndb/storage.Dataset",
	"hnswVertex.metadata":     "github.com/marekgalovic/anndb/index.Metadata",
	"hnswVertex.edgeMutexes":  "[]*sync.RWMutex",
	"hnswVertex.deleted":      "uint32",
	"hnswVertex.id":           "github.com/satori/go.uuid.UUID",
	"hnswVertex.level":        "int",
	"Hnsw.verticesMu":         "[N]*sync.RWMutex",
	"Hnsw.entrypoint":         "unsafe.Pointer",
	"Conn.addresses":          "map[uint64]string",
}

var arrayLenRe = regexp.MustCompile(`^\[\d+\]`)

func (c *Ctx) fieldByTypeHint(st *types.Struct, typ, field string) *types.Var {
	want, ok := fieldTypeHint[typ+"."+field]
	if !ok {
		return nil
	}
	var hit *types.Var
	n := 0
	for i := 0; i < st.NumFields(); i++ {
		got := arrayLenRe.ReplaceAllString(st.Field(i).Type().String(), "[N]")
		if got == want {
			hit = st.Field(i)
			n++
		}
	}
	if n == 1 {
		return hit
	}
	return nil
}
