#!/usr/bin/env python3
"""Regenerates /verif/MANIFEST.json from the table below and from `anndbcheck -list`
(a property is claimed only when the analyser has a check registered for it)."""
import json, subprocess, sys, os

T = {
 "C01": dict(
  text="Decides, for all paths of all functions of the index and of the dataset search, five structural necessary conditions of the property: every neighbour taken from an edge set is tested for its tombstone before any other use (R1), the entry point is rewritten when the removed vertex was the entry point (R2), every queue item pairs a vertex with the distance computed from that same vertex and the query, and a result slot is filled from one popped item (R3), results are sorted by a strict < on Score and truncated to min(k,len) (R4), a visited set guards every beam push (R5). It does not decide the runtime graph invariant behind 'non-empty index gives a non-empty answer'.",
  note="Trusted: go/ssa, container/heap and sort contracts. Not decided: reachability of live vertices from the entry point (runtime graph), uniqueness of ids as a value property, snapshot-load histories.",
  tech="SSA guard/dominance analysis and value-flow pairing over edge-set range loops; return-shape analysis (sort dominates, min-bounded slice)", ref="DESIGN.md §2 C01"),
 "C02": dict(
  text="Decides the structural conditions that make the partition a faithful map: shard maps only touched under their paired lock, insert-if-absent / delete-if-present in one critical section, the right sentinel error on the right branch, counters updated by exactly +1/-1 and +size/-size (normalised in Z/2^64) in that critical section, failed operations reach no mutator, update merges old keys only when absent and re-inserts with the old level, no write into a possibly-nil request map.",
  note="Trusted: go/ssa. Not decided: BytesSize()'s floating-point link estimate.",
  tech="lock-set dataflow with access-path lock identity, guard polarity analysis, linear normalisation of counter deltas mod 2^64", ref="DESIGN.md §2 C02"),
 "C03": dict(
  text="Decides the ordering obligations under which crash safety reduces to Badger's and etcd/raft's: in the Ready loop the persist call dominates every apply site, acknowledgement (Notify) is reachable only from the apply tree, Advance comes last, a persist error is fatal; every batch function returns nil only as the value of Flush; SyncWrites is not disabled; the snapshot index is the applied index; StartNode only on a fresh log.",
  note="Trusted: Badger WriteBatch/Flush durability, etcd/raft Storage contract. Not decided: Badger's own crash atomicity, enumeration of crash instants.",
  tech="dominator / must-pass-through analysis on the no-return-pruned CFG of the Ready loop, who-may-call over the call graph, value-flow of the snapshot index", ref="DESIGN.md §2 C03"),
 "C04": dict(
  text="Decides determinism of the apply tree (no randomness/time source reachable from any apply root; insert level comes from the log entry or the replaced vertex), single-goroutine apply, 'what apply mutates the snapshot captures and restore resets' over a frozen table of replicated fields, and writer/reader grammar agreement of every Save/Load pair.",
  note="Trusted: go/ssa, encoding/binary. Not decided: equality of contents as run-time values for all logs.",
  tech="effect analysis over the call graph from registered apply/snapshot roots; token-grammar extraction and comparison of writer/reader pairs", ref="DESIGN.md §2 C04"),
 "C05": dict(
  text="Decides the host contract of etcd/raft as orderings in the Ready loop: messages are sent after the persist call unless guarded by the leader test, persist error is fatal, Advance once and last, every committed ConfChange reaches ApplyConfChange, StartNode only when the log is fresh, Step errors surface.",
  note="Trusted: etcd/raft's algorithm given its documented host contract. Not decided: safety/convergence under fault schedules.",
  tech="dominators and guarded-by analysis on the Ready loop, control-dependence of StartNode on storage freshness", ref="DESIGN.md §2 C05"),
 "C06": dict(
  text="Decides group isolation and the shape of the Storage implementation: every iterator is prefix-bounded by the group id, every key is built by a group-embedding constructor, DeleteGroup covers every key family, batch functions commit through Flush with Cancel deferred, no full sweep after a write into the same family, the index codec is big-endian on both sides at the same offsets, and the boundary comparisons of Term/Entries/CreateSnapshot have the reference MemoryStorage's polarity.",
  note="Trusted: Badger iterator/prefix semantics. Not decided: observational equivalence with MemoryStorage over call sequences.",
  tech="value-flow of iterator options and key provenance, CFG ordering inside batch functions, codec symmetry check", ref="DESIGN.md §2 C06"),
 "C07": dict(
  text="Decides three necessary conditions of exactness on small collections: links are added symmetrically with the same level and distance, pruning happens only above the per-level budget (mMax0 on level 0, mMax otherwise; defaults 2m/m), and the level-0 beam is max(ef,k).",
  note="Not decided: recall and exactness as numbers.",
  tech="SSA pairing and guard analysis in Insert/Search", ref="DESIGN.md §2 C07"),
 "C08": dict(
  text="Decides grammar agreement of every writer/reader pair, full reads (no bare Read with discarded count), guarded narrowing of length fields, agreement of the tombstone filter between the count loop and the body loop, and that Load resets every counter and map it then accumulates into.",
  note="Trusted: encoding/binary and io.ReadFull contracts. Not decided: bit-identity as values.",
  tech="token-grammar extraction, call-shape lint on io.Reader use, dominance of resets over accumulations", ref="DESIGN.md §2 C08"),
 "C09": dict(
  text="Decides the fan-out shape of dataset search: each partition is put in exactly one bucket, one worker per bucket, each worker sends exactly one message on every path, the collector loop is bounded by the number of workers, no select receives from two channels that a spawned goroutine closes, sort+truncate dominate success, no error is dropped.",
  note="Trusted: Go channel/select semantics. Not decided: reachability of replicas.",
  tech="CFG path counting of sends, channel typestate (closed-channel receive), nil-error rule", ref="DESIGN.md §2 C09"),
 "C10": dict(
  text="Decides that the routing function is pure, total for n>=1 and in range, that every index into the partition table goes through one routing point applied to the item id and the stored partition count on all seven write paths, and that the modulus cannot change after construction.",
  note="Trusted: go/ssa. The n>=1 premise is C12's.",
  tech="purity/effect analysis of the routing function, who-indexes-the-table rule, store-site enumeration", ref="DESIGN.md §2 C10"),
 "C11": dict(
  text="Decides: no error is dropped on a path that returns nil (nil-err rule), non-blocking notifications have a buffered receiver, the notification id in a proposal is the one created by the same activation, the dimension check dominates propose and proxy, success is returned only from the notification arm, and batch errors map every failed item.",
  note="Trusted: Go channel semantics. Not decided: timing.",
  tech="nil-error SSA rule, constant propagation of channel capacity, dominators", ref="DESIGN.md §2 C11"),
 "C12": dict(
  text="Enumerates, from every RPC root of the three client services and from the apply roots, the panic-capable constructs on untrusted operands (Must-helpers, division/modulo, rand.Intn, &x[0], nil-map write, unbounded make) and requires a dominating guard; requires a dimension guard on every path to a proposer carrying a vector and proposer-side guarantees for apply-fatal parses.",
  note="Not decided: liveness of a real process, resource exhaustion.",
  tech="reachability from RPC/apply roots plus guard search on SSA", ref="DESIGN.md §2 C12"),
 "C13": dict(
  text="Decides the data-race and lock discipline the index relies on: edge sets only under their per-level lock, shard maps under the shard lock, edge/shard locks are leaf locks (no lock acquisition or channel operation while held), atomic-only fields are touched only through sync/atomic, published vertex fields are never stored after construction.",
  note="Not decided: linearizability, invariants at quiescence.",
  tech="lock-set dataflow with access-path identity; field access classification", ref="DESIGN.md §2 C13"),
 "C14": dict(
  text="Decides: consumers are registered before the raft group is started, the catalogue apply tree is deterministic (ids and placement chosen by the proposer), the catalogue snapshot reads what apply writes and restore replaces it, delete unwatches every partition before removing the entry.",
  note="Not decided: behaviour under fault schedules.",
  tech="CFG ordering of Register*/Start, effect analysis, path analysis in the delete apply function", ref="DESIGN.md §2 C14"),
 "C15": dict(
  text="Decides on the freshly built object code of the six kernels: no alignment-requiring access through a data pointer, stores only to result slots, control flow independent of data; and on the Go wrappers: length is len(a), pointers are &a[0], &b[0] in order, results are fresh locals; dispatch wrappers pass (a,b) unchanged.",
  note="Trusted: llvm-objdump's decoder. Not decided: numeric agreement, loop-bound proof of in-bounds access.",
  tech="opcode/operand tables over the disassembly of the built kernels; SSA shape check of the wrappers", ref="DESIGN.md §2 C15"),
 "C16": dict(
  text="Decides that per-partition placement slices do not alias a buffer rewritten in the same loop, that their length is min(len(members), R), that members come from the address book and are only permuted, and that placement travels in the proposal.",
  note="Not decided: statistical spread.",
  tech="loop-carried alias analysis on SSA, min-bound provenance", ref="DESIGN.md §2 C16"),
 "C17": dict(
  text="Decides: no goroutine captures the loop variable of the partition loop, each partition contributes once on exactly one branch to both accumulators, every worker error is sent and fails the call.",
  note="Not decided: remote node availability.",
  tech="closure-capture analysis (pre-1.22 loop semantics), CFG branch accounting", ref="DESIGN.md §2 C17"),
 "C18": dict(
  text="Decides absence of new wait-for cycles: no blocking channel operation is performed while holding a mutex that the code serving that channel can acquire, and no role waits without deadline on a notification that only a role blocked on it can send.",
  note="Not decided: progress in presence of recorded cycles; fairness.",
  tech="may-held lock sets + abstract channel graph over roles", ref="DESIGN.md §2 C18"),
 "C19": dict(
  text="Decides the heap.Interface contract of both queue types (Less strict on priorities with the direction tied to the constructor, Swap, Push appends, Pop removes the last, Len) and that Reverse hands a fresh copy to the new queue.",
  note="Trusted: container/heap's documented contract.",
  tech="SSA shape check of the five heap methods; alias analysis of Reverse", ref="DESIGN.md §2 C19"),
 "C20": dict(
  text="Decides who may write the address book (transport constructor, join handshake, zero-group ConfChange handler), that the address travels in ConfChange.Context to the handler, that the zero-group snapshot covers the address book, and that a membership change is acknowledged only after it is applied.",
  note="Not decided: convergence under message loss.",
  tech="who-may-call over CHA∪VTA with guard analysis; effect analysis on the zero group", ref="DESIGN.md §2 C20"),
}

NA_REASON = "check not built yet in this revision (planned: see DESIGN.md §2); no claim is made"

def main():
    env = dict(os.environ)
    try:
        out = subprocess.run(["/verif/bin/anndbcheck", "-list"], capture_output=True, text=True, env=env).stdout.split()
    except Exception as e:
        print("cannot list checks:", e); sys.exit(1)
    claimed = [p for p in sorted(T) if p in out]
    checks = []
    for p in claimed:
        t = dict(T[p])
        # the analyser's own rule table (from the last evidence file): rules added after the seeded rounds are listed here
        try:
            ev = json.load(open(f"/verif/evidence/{p}.json"))
            rules = []
            for line in ev["coverage"]["explanation"].split("\n"):
                rid, _, rest = line.partition(" (")
                _, _, text = rest.partition("): ")
                if rid.startswith(p + ".R") and text:
                    rules.append(f"{rid.split('.')[1]}: {text}")
            if rules:
                t["text"] = t["text"] + " Full rule table as run (each an every-path / every-site obligation over /repo's current source; DESIGN.md §16 says which seeded change motivated which): " + " | ".join(rules)
        except Exception:
            pass
        checks.append({
            "property_id": p,
            "quick_cmd": f"./check.sh {p} quick",
            "thorough_cmd": f"./check.sh {p} thorough",
            "evidence_file": f"/verif/evidence/{p}.json",
            "replay_cmd_template": f"./check.sh {p} quick  # {{path}} names the obligation",
            "engine": "anndbcheck",
            "level_claimed": {"category": "other", "text": t["text"], "design_ref": t["ref"]},
            "level_note": t["note"],
            "technique": "static analysis: " + t["tech"],
        })
    na = [{"property_id": p, "reason": NA_REASON} for p in sorted(T) if p not in claimed]
    m = {
        "version": 1,
        "setup_cmd": "cd /verif/checker && GOFLAGS=-mod=mod GOPROXY=off GOSUMDB=off GOTOOLCHAIN=local GOWORK=off go build -o /verif/bin/anndbcheck .",
        "hooks": {
            "guard": "verif",
            "enable": "none needed: the analyser reads source; no instrumentation is compiled into /repo",
            "baseline_off_cmd": "cd /repo && GOFLAGS=-mod=mod GOPROXY=off GOSUMDB=off go test -vet=off -count=1 ./...",
            "source_commits": [],
            "add_only": True,
        },
        "engines": [{
            "name": "anndbcheck", "path": "/verif/checker",
            "serves_properties": claimed,
            "kind_free_text": "repository-specific static analyser (go/packages + go/ssa + call graph, golang.org/x/tools v0.29.0); no code of /repo is executed",
        }],
        "checks": checks,
        "not_applicable": na,
        "notes": "Every verdict is computed from /repo's current source by /verif/bin/anndbcheck (built by setup_cmd; check.sh rebuilds it when its sources changed). Recorded, unrepaired defects are listed in /verif/known_findings.txt and printed as KNOWN-FINDING lines.",
    }
    json.dump(m, open("/verif/MANIFEST.json", "w"), indent=1)
    print("claimed:", claimed)
    print("not applicable:", [x["property_id"] for x in na])

main()
