#!/bin/bash
# usage: ./seed_matrix.sh <dir with *.diff>  — for each diff: apply to a scratch worktree, run ALL property checks, list those that report a violation
set -u
cd "$(dirname "$0")"
DIR="$(cd "${1:?dir}" && pwd)"
export GOFLAGS=-mod=mod GOPROXY=off GOSUMDB=off GOTOOLCHAIN=local
WT=$(mktemp -d /tmp/anndb-matrix.XXXXXX); rmdir "$WT"
git -C /repo worktree add -q --detach "$WT" ${BASE:-HEAD} || exit 2
trap 'git -C /repo worktree remove --force "$WT" >/dev/null 2>&1; rm -rf "$WT" /tmp/anndb-matrix-out.*' EXIT
PROPS=$(${BIN:-/verif/bin/anndbcheck} -list)
for f in "$DIR"/*.diff; do
  git -C "$WT" checkout -q -- . && git -C "$WT" clean -fdq
  if ! git -C "$WT" apply "$f" 2>/dev/null; then echo "$(basename $f): DOES NOT APPLY"; continue; fi
  if ! (cd "$WT" && go build ./... >/dev/null 2>&1); then echo "$(basename $f): DOES NOT BUILD"; continue; fi
  O=$(mktemp -d /tmp/anndb-matrix-out.XXXXXX); mkdir -p $O/evidence
  res=$(${BIN:-/verif/bin/anndbcheck} -repo "$WT" -verif /verif -out $O -prop all 2>&1 | awk '/^(VIOLATED|UNDECIDED)/ { if (first == "") first = substr($0, 1, 230) } /^C[0-9]+ quick:/ { if ($(NF-2) + 0 > 0) print $1 ": " first; first = "" } /^cannot analyse/ { print "ALL: " $0 }'); rm -rf $O
  echo "== $(basename $f)"; if [ -z "$res" ]; then echo "   (no check reports it)"; else echo "$res" | sed 's/^/   /'; fi
done
