#!/bin/bash
# False-alarm regression: every diff under variants/refactorings is a behaviour-preserving refactoring written by an
# independent sub-agent (existing suite passes with it). Every check must stay SILENT on every one of them.
# usage: ./run_refactorings.sh            (applies each diff to a scratch worktree of /repo HEAD, outside /repo and /verif)
# Diffs that no longer apply to HEAD (the code they touch was changed by a later fix: commit) are listed and skipped.
cd "$(dirname "$0")"
out=$(./seed_matrix.sh variants/refactorings 2>&1)
echo "$out" | grep -E "DOES NOT|rc=" 
alarms=$(echo "$out" | grep -E "^   C[0-9]+:" | wc -l)
echo "refactorings: $(echo "$out" | grep -c '^== ') applied, $alarms alarm line(s)"
echo "$out" | grep -B1 -E "^   C[0-9]+:" 
[ "$alarms" -eq 0 ]
