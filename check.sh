#!/bin/bash
# usage: ./check.sh <Cxx> [quick|thorough]     — decides property Cxx on /repo's current working tree
set -u
cd "$(dirname "$0")"
export GOFLAGS=-mod=mod GOPROXY=off GOSUMDB=off GOTOOLCHAIN=local GOWORK=off
unset GOWORK 2>/dev/null; export GOWORK=off
PROP="${1:?property id}"
TIER="${2:-${VERIF_TIER:-quick}}"
REPO="${VERIF_REPO:-/repo}"
BIN=/verif/bin/anndbcheck
# (re)build the analyser when its sources are newer than the binary
if [ ! -x "$BIN" ] || [ -n "$(find /verif/checker -name '*.go' -newer "$BIN" 2>/dev/null | head -1)" ]; then
  (cd /verif/checker && go build -o "$BIN" .) || { echo "cannot build the analyser"; exit 2; }
fi
exec "$BIN" -repo "$REPO" -verif /verif ${VERIF_OUT:+-out "$VERIF_OUT"} -prop "$PROP" -tier "$TIER" -seed "${VERIF_SEED:-0}"
