#!/bin/bash
# usage: ./try_diff.sh <diff> <prop> [prop…]  — apply the diff to a scratch worktree of /repo HEAD, run the named checks, print verdict lines
set -u
cd "$(dirname "$0")"
D="$(realpath "$1")"; shift
export GOFLAGS=-mod=mod GOPROXY=off GOSUMDB=off GOTOOLCHAIN=local
WT=$(mktemp -d /tmp/anndb-try.XXXXXX); rmdir "$WT"
git -C /repo worktree add -q --detach "$WT" ${BASE:-HEAD} || exit 2
trap 'git -C /repo worktree remove --force "$WT" >/dev/null 2>&1; rm -rf "$WT" "$O"' EXIT
O=$(mktemp -d /tmp/anndb-try-out.XXXXXX); mkdir -p $O/evidence
git -C "$WT" apply "$D" || { echo "DOES NOT APPLY"; exit 2; }
for p in "$@"; do
  ${BIN:-./bin/anndbcheck} -repo "$WT" -verif /verif -out $O -prop $p 2>&1 | grep -E "^(VIOLATED|UNDECIDED)|quick:" | cut -c1-${W:-300}
done
