#!/bin/bash
# usage: ./run_variants.sh <dir-with-diffs-and-expect.txt> [only-prop]
# Applies each variant to a scratch worktree of /repo (never to /repo itself), runs the expected checks against it and
# reports whether each check raised a VIOLATION. Evidence of these runs goes to a scratch directory.
set -u
cd "$(dirname "$0")"
DIR="$(cd "${1:?variant dir}" && pwd)"; ONLY="${2:-}"
export GOFLAGS=-mod=mod GOPROXY=off GOSUMDB=off GOTOOLCHAIN=local
WT=$(mktemp -d /tmp/anndb-variant.XXXXXX); OUT=$(mktemp -d /tmp/anndb-variant-out.XXXXXX)
git -C /repo worktree add -q --detach "$WT" HEAD || exit 2
trap 'git -C /repo worktree remove --force "$WT" >/dev/null 2>&1; rm -rf "$WT" "$OUT"' EXIT
mkdir -p "$OUT/evidence"
pass=0; fail=0
while read -r f props; do
  case "$f" in \#*|"") continue;; esac
  git -C "$WT" checkout -q -- . && git -C "$WT" clean -fdq
  if ! git -C "$WT" apply "$DIR/$f" 2>/dev/null; then echo "SKIP  $f (does not apply)"; continue; fi
  if ! (cd "$WT" && go build ./... >/dev/null 2>&1); then echo "SKIP  $f (does not build)"; continue; fi
  for p in $props; do
    [ -n "$ONLY" ] && [ "$ONLY" != "$p" ] && continue
    if ! /verif/bin/anndbcheck -list | grep -qx "$p"; then echo "n/a   $f $p (no check yet)"; continue; fi
    o=$(VERIF_REPO="$WT" VERIF_OUT="$OUT" ./check.sh "$p" quick 2>&1); rc=$?
    if [ $rc -eq 1 ] && echo "$o" | grep -q '^VIOLATION'; then pass=$((pass+1)); echo "CAUGHT $f $p: $(echo "$o" | grep -m1 -E '^(VIOLATED|UNDECIDED)' | cut -c1-160)";
    else fail=$((fail+1)); echo "MISSED $f $p (rc=$rc)"; fi
  done
done < "$DIR/expect.txt"
echo "caught=$pass missed=$fail"
[ $fail -eq 0 ]
