#!/bin/bash
# Sensitivity sweep (evidence, never a verdict): every single-site mutant of the hand-written code produced by
# `anndbcheck -gen-mutants` (comparison moved one step, &&/|| exchanged, call statement or defer removed, go made
# synchronous, returned error replaced by nil) is analysed through an overlay by all 20 checks; mutants that no check
# reports are additionally run against the tests of their own package (if it has any) to see whether the suite kills them.
# Output: one line per mutant:  FLAGGED <props> | SURVIVES(tests pass|no tests) | KILLED-BY-TESTS | INVALID (does not compile)
# usage: ./mutation_sweep.sh [path-filter] > report
set -u
cd "$(dirname "$0")"
export GOFLAGS=-mod=mod GOPROXY=off GOSUMDB=off GOTOOLCHAIN=local GOWORK=off
[ -n "${SKIP_BUILD:-}" ] || (cd checker && go build -o /verif/bin/anndbcheck .) || exit 2
ROOT=$(mktemp -d /tmp/anndb-mut.XXXXXX)
trap 'rm -rf "$ROOT"' EXIT
REPO="${VERIF_REPO:-/repo}"
/verif/bin/anndbcheck -repo "$REPO" -gen-mutants "$ROOT/m" ${1:+-mutants-only "$1"} > "$ROOT/list.txt"
one() {
  d="$1"; key=$(cat "$d/KEY"); o="$d/out"; mkdir -p "$o/evidence"
  skip=C15
  out=$(/verif/bin/anndbcheck -repo "$REPO" -verif /verif -out "$o" -prop all -skip C15 -overlaydir "$d/files" 2>&1)
  rm -rf "$o"
  if echo "$out" | grep -q '^cannot analyse'; then echo "INVALID  $key"; return; fi
  props=$(echo "$out" | awk '/^C[0-9]+ quick:/ { if ($(NF-2)+0 > 0) printf "%s ", $1 }')
  if [ -n "$props" ]; then echo "FLAGGED  $key :: $props"; return; fi
  # not reported: do the package's own tests notice?
  f=$(cd "$d/files" && find . -name '*.go' | head -1); pkg=$(dirname "$f")
  if ls "$REPO/$pkg"/*_test.go >/dev/null 2>&1 && [ -s "$(ls "$REPO/$pkg"/*_test.go | head -1)" ]; then
    ov="$d/overlay.json"; python3 - "$d/files" "$REPO" > "$ov" <<'P'
import json,os,sys
root,repo=sys.argv[1],sys.argv[2]; rep={}
for dp,_,fs in os.walk(root):
    for f in fs:
        p=os.path.join(dp,f); rep[os.path.join(repo,os.path.relpath(p,root))]=p
print(json.dumps({"Replace":rep}))
P
    if (cd "$REPO" && timeout 120 go test -vet=off -count=1 -skip TestHnswSearchLevel -overlay "$ov" "./$pkg/" >/dev/null 2>&1); then echo "SURVIVES $key :: tests of $pkg pass"; else echo "KILLED-BY-TESTS $key"; fi
  else
    echo "SURVIVES $key :: no tests in $pkg"
  fi
}
export -f one; export REPO
ls -d "$ROOT"/m/* | xargs -P "${JOBS:-12}" -I{} bash -c 'one {}' | sort -k2
